------------------------------- MODULE P_C20 -------------------------------
(* Property C20 — MockDisplay is a faithful test oracle.                      *)
(* ABSTRACT statements of the property (what `properties.jsonl` says, nothing *)
(* more) and the property-level predicates over (model state, OBSERVATION).   *)
(* Every predicate returns the set of failure codes (empty = allowed).        *)
(* MC_C20 feeds them the EGMock machine, Trace_C20 what the real MockDisplay  *)
(* did.  Not covered by the property and therefore never judged here:         *)
(* the panic message, the colours of diff(),                                   *)
(* the exact zero rectangle of an empty display, which character a colour has.*)
EXTENDS EGMock

---------------------------------------------------------------------------
(* "Drawing panics exactly when a pixel lies outside the display or is drawn  *)
(*  a second time while the respective check is enabled, and never otherwise" *)
PointOf(px, i) == <<px[i][1], px[i][2]>>
InDisplay(p) == InRect(DisplayArea, p)
\* pixel i of one draw_iter call is one at which the call has to panic
Offends(d, px, i) ==
  LET p == PointOf(px, i) IN
  IF ~InDisplay(p) THEN ~d.oob
  ELSE ~d.ovr /\ (p \in DOMAIN d.cells \/ \E j \in 1..(i - 1) : PointOf(px, j) = p)
ShouldPanic(d, px) == \E i \in 1..Len(px) : Offends(d, px, i)

(* "get_pixel returns the colour last drawn to a point and None for untouched *)
(*  points": the pixels before the first offending one have been drawn, later *)
(*  writes to a point win, out-of-display pixels leave no trace.              *)
Applied(d, px) ==
  LET off == { i \in 1..Len(px) : Offends(d, px, i) }
      k == IF off = {} THEN Len(px) + 1 ELSE SetMin(off)
  IN { j \in 1..(k - 1) : InDisplay(PointOf(px, j)) }
AfterDraw(d, px) ==
  LET ap == Applied(d, px) IN
  [p \in (DOMAIN d.cells) \cup { PointOf(px, j) : j \in ap } |->
     LET J == { j \in ap : PointOf(px, j) = p } IN
     IF J = {} THEN d.cells[p] ELSE px[SetMax(J)][3]]

(* "two displays compare equal, and diff is empty, exactly when all cells agree" *)
\* sparse form (cells untouched in both displays agree trivially) and the literal form
CellsAgree(a, b)     == \A p \in (DOMAIN a) \cup (DOMAIN b) : Get(a, p) = Get(b, p)
CellsAgreeFull(a, b) == \A p \in PointsOf(DisplayArea) : Get(a, p) = Get(b, p)

(* "affected_area is the tight bounding box of the touched cells"; a display  *)
(* without touched cells has no bounding box: any empty rectangle is accepted *)
IsTightBox(cells, r) ==
  LET T == DOMAIN cells IN
  IF T = {} THEN IsEmpty(r)
  ELSE /\ ~IsEmpty(r)
       /\ \A p \in T : InRect(r, p)
       /\ \E p \in T : p[1] = Left(r)
       /\ \E p \in T : p[1] = Right(r) - 1
       /\ \E p \in T : p[2] = Top(r)
       /\ \E p \in T : p[2] = Bottom(r) - 1

(* "from_pattern and the Debug output round-trip" for colours / characters of *)
(* the colour type's character set                                            *)
AllHaveChar(ct, T) == { t[3] : t \in T } \subseteq DOMAIN ToChar(ct)       \* T: cell triples
ValidPattern(ct, t) ==
  /\ t.n <= SIZE
  /\ \A i \in 1..t.n : t.w[i] = t.w[1] /\ t.w[i] <= SIZE
  /\ { e[3] : e \in t.chars } \subseteq DOMAIN ToColour(ct)
  /\ \A e \in t.chars : e[2] < t.n /\ e[1] < t.w[e[2] + 1]

---------------------------------------------------------------------------
(* property-level predicates: model state x observation -> failure codes *)

\* one draw_iter / fill_solid call with pixel list px that ended with outcome out
DrawFails(d, px, out) ==
  IF (out # OutOk) = ShouldPanic(d, px) THEN {}
  ELSE IF out # OutOk THEN {"panic_unexpected"} ELSE {"panic_missing"}

\* o: [cells, ref: triples read back with get_pixel from the display and the reference display,
\*     aa, raa: affected_area() of both, eq, eqr: (display == reference), (reference == display) as 0/1,
\*     ne: (display != reference), diff: triples of display.diff(reference)]
ObsFails(d, rf, o) ==
     (IF o.cells = Triples(d.cells) /\ o.ref = Triples(rf.cells) THEN {} ELSE {"get_pixel"})
\* a point that is not on the display is never touched: o.outside = <<x, y, 0 None | 1 Some | 2 panicked>>
\cup (IF \A i \in 1..Len(o.outside) : InDisplay(<<o.outside[i][1], o.outside[i][2]>>) \/ o.outside[i][3] = 0
      THEN {} ELSE {"get_pixel_outside_display"})
\cup (IF IsTightBox(d.cells, o.aa) /\ IsTightBox(rf.cells, o.raa) THEN {} ELSE {"affected_area"})
\cup (IF LET agree == CellsAgree(d.cells, rf.cells) IN
         (o.eq = 1) = agree /\ (o.eqr = 1) = agree /\ (o.ne = 1) = ~agree
      THEN {} ELSE {"eq"})
\cup (IF (o.diff = {}) = CellsAgree(d.cells, rf.cells) THEN {} ELSE {"diff_empty"})
\* displays derived from the display are displays: affected_area is the tight box of THEIR touched cells (o.daa of the
\* diff, o.swaa / o.mpaa of swap_xy() / map(identity)), swap_xy transposes the cells, map with the identity keeps them
\cup (IF IsTightBox([p \in { <<t[1], t[2]>> : t \in o.diff } |-> 0], o.daa) THEN {} ELSE {"affected_area_of_diff"})
\cup (IF o.sw = { <<t[2], t[1], t[3]>> : t \in Triples(d.cells) } /\ IsTightBox(SwapXY(d.cells), o.swaa) THEN {} ELSE {"swap_xy"})
\cup (IF o.mp = Triples(d.cells) /\ IsTightBox(d.cells, o.mpaa) THEN {} ELSE {"map_identity"})

\* cells: triples of a display all of whose colours have a character; back: outcome and triples of
\* from_pattern(Lines(Debug(display)))
DebugBackFails(ct, cells, backOut, back) ==
  IF AllHaveChar(ct, cells) => (backOut = OutOk /\ back = cells) THEN {} ELSE {"debug_from_pattern"}

\* t: a text block over the character set of ct; out: outcome of from_pattern(t);
\* dbg: the non-blank characters of Debug(from_pattern(t))
PatternFails(ct, t, out, dbg) ==
  IF ValidPattern(ct, t) => (out = OutOk /\ dbg = t.chars) THEN {} ELSE {"pattern_debug"}
\* displays as the constructors return them (new + draw, from_points, from_pattern of a Debug rendering, a clone): both
\* checks are enabled, so a second draw of a touched cell and a draw outside the display panic with the respective
\* message; the Debug rendering does not depend on width / precision flags of the format string (every Debug
\* rendering round-trips through from_pattern)
FreshFails(e) ==
       (IF e.again_out = OutTwice THEN {} ELSE {"constructed_display_allows_second_draw"})
  \cup (IF e.oob_out = OutOob THEN {} ELSE {"constructed_display_allows_out_of_bounds_draw"})
  \cup (IF e.dbg_flags_same = 1 THEN {} ELSE {"debug_output_depends_on_format_flags"})
=============================================================================
