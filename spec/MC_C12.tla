------------------------------- MODULE MC_C12 ------------------------------
(* (M) for C12.  The TRANSCRIBED colour code of EGColor (rgb_color.rs new /   *)
(* r / g / b / From<Raw> / Into<Raw>, gray_color.rs, binary_color.rs,         *)
(* to_bytes.rs) is run as a small machine -- a row of colours is constructed, *)
(* sent through its raw representation and back -- and the recorded row is    *)
(* judged by the property predicates of P_C12, exactly as Trace_C12 judges    *)
(* the rows recorded from the library.  Domain: EVERY colour value and EVERY  *)
(* raw value of every type with BITS_PER_PIXEL <= 16 (Full = TRUE: also of    *)
(* the 24-bit types), plus out-of-range constructor arguments; for the 24-bit *)
(* types every channel swept over 0..255 with the other two on a boundary     *)
(* set.  TableOK checks the table of EGColor against itself (fields disjoint, *)
(* adjacent, Pack/Unpack inverse).                                            *)
EXTENDS P_C12, TLC
CONSTANTS Full
VARIABLES s

Small == { n \in TypeNames : Types[n].raw <= 16 }
Big   == TypeNames \ Small
Bound8 == {0, 1, 2, 85, 127, 128, 254, 255}
Others(t, ch, full) ==      \* values of the argument tuple outside the swept channel
  IF ~IsRgb(t) THEN {<<0>>}
  ELSE LET V(c) == IF c = ch THEN {0} ELSE IF full THEN 0..ChMax(t, c) ELSE Bound8 IN
       { <<r, g, b>> : r \in V(1), g \in V(2), b \in V(3) }

\* Force(f, n): the function f on 1..n as an explicit tuple (TLC evaluates it once instead of at every access)
Force(f, n) == SubSeq(f, 1, n)
\* a row as the harness records it, computed by the transcription
RowObsT(ty, ch, fix, a0, n) ==
  LET t == Types[ty]
      nb == StorageBytes(t)
      Args(k) == [c \in 1..NChan(t) |-> IF c = ch THEN a0 + k - 1 ELSE fix[c]]
      st   == Force([k \in 1..n |-> StoredOfNewT(t, Args(k))], n)            \* the colour objects
      raw  == Force([k \in 1..n |-> IntoRawAnyT(t, st[k])], n)               \* Raw::from(c).into_inner()
      back == Force([k \in 1..n |-> FromRawAnyT(t, raw[k])], n)              \* C::from(raw)
      chs  == Force([k \in 1..n |-> ChannelsT(t, st[k])], n)
      bes  == Force([k \in 1..n |-> BeBytesT(t, raw[k])], n)
      les  == Force([k \in 1..n |-> LeBytesT(t, raw[k])], n)
  IN [ty |-> ty, ch |-> ch, fix |-> fix, a0 |-> a0, n |-> n, bits |-> t.raw,
      raw |-> raw, sto |-> raw,                                             \* mod.rs:172-174 into_storage = into().into_inner()
      c1 |-> Force([k \in 1..n |-> chs[k][1]], n),
      c2 |-> IF IsRgb(t) THEN Force([k \in 1..n |-> chs[k][2]], n) ELSE <<>>,
      c3 |-> IF IsRgb(t) THEN Force([k \in 1..n |-> chs[k][3]], n) ELSE <<>>,
      be |-> Force([i \in 1..(n * nb) |-> bes[(i - 1) \div nb + 1][((i - 1) % nb) + 1]], n * nb),
      le |-> Force([i \in 1..(n * nb) |-> les[(i - 1) \div nb + 1][((i - 1) % nb) + 1]], n * nb),
      beq |-> Force([k \in 1..n |-> IF back[k] = st[k] THEN 1 ELSE 0], n),
      braw |-> Force([k \in 1..n |-> IntoRawAnyT(t, back[k])], n)]
RawRowObsT(ty, base, n) ==
  LET t == Types[ty]
      col == Force([k \in 1..n |-> FromRawAnyT(t, base + k - 1)], n)
      rt  == Force([k \in 1..n |-> IntoRawAnyT(t, col[k])], n)
      chs == Force([k \in 1..n |-> ChannelsT(t, col[k])], n)
  IN [ty |-> ty, base |-> base, n |-> n,
      rt |-> rt,
      rt2 |-> Force([k \in 1..n |-> IntoRawAnyT(t, FromRawAnyT(t, rt[k]))], n),
      \* colour -> raw -> colour is the identity on the transcribed colour value
      beq |-> Force([k \in 1..n |-> IF FromRawAnyT(t, rt[k]) = col[k] THEN 1 ELSE 0], n),
      c1 |-> Force([k \in 1..n |-> chs[k][1]], n),
      c2 |-> IF IsRgb(t) THEN Force([k \in 1..n |-> chs[k][2]], n) ELSE <<>>,
      c3 |-> IF IsRgb(t) THEN Force([k \in 1..n |-> chs[k][3]], n) ELSE <<>>]

\* rows: the last channel swept over exactly its values for every value of the other channels
\* (= every colour of the type), and over all 256 u8 arguments on the boundary set
Init ==
  \/ \E ty \in (IF Full THEN TypeNames ELSE Small) :
       LET t == Types[ty]  ch == NChan(t) IN
       \E fix \in Others(t, ch, TRUE) :
         s = [op |-> "row", ty |-> ty, ch |-> ch, fix |-> fix, a0 |-> 0, n |-> ChMax(t, ch) + 1]
  \/ \E ty \in TypeNames :
       LET t == Types[ty] IN
       \E ch \in 1..NChan(t) : \E fix \in Others(t, ch, FALSE) :
         s = [op |-> "row", ty |-> ty, ch |-> ch, fix |-> fix, a0 |-> 0, n |-> 256]
  \/ \E ty \in (IF Full THEN TypeNames ELSE Small) :
       LET m == Min(256, 2 ^ Types[ty].raw) IN
       \E c \in 0..(2 ^ Types[ty].raw \div m - 1) :
         s = [op |-> "rawrow", ty |-> ty, base |-> c * m, n |-> m]
  \/ \E ty \in Big : \E hi \in Bound8, mid \in Bound8 :
         s = [op |-> "rawrow", ty |-> ty, base |-> hi * 65536 + mid * 256, n |-> 256]
  \/ \E ty \in TypeNames : s = [op |-> "table", ty |-> ty]

Trip == \/ /\ s.op = "row"
           /\ s' = [s EXCEPT !.op = "rowobs"]
        \/ /\ s.op = "rawrow"
           /\ s' = [s EXCEPT !.op = "rawobs"]
Next == Trip
Spec == Init /\ [][Next]_s

\* (the recorded row is computed where it is judged: keeping it in the state only costs fingerprinting)
RowOK    == s.op = "rowobs" => RowFails(RowObsT(s.ty, s.ch, s.fix, s.a0, s.n)).codes = {}
RawRowOK == s.op = "rawobs" => RawRowFails(RawRowObsT(s.ty, s.base, s.n)).codes = {}
\* the table itself: channel fields are disjoint and adjacent from bit 0, the used bits fit the raw
\* type, Pack and Unpack are inverse on the boundary colours, transcribed positions = documented ones
TableOK == s.op = "table" =>
  LET t == Types[s.ty]
      B(ch) == {0, 1, ChMax(t, ch) \div 2, ChMax(t, ch) - 1, ChMax(t, ch)} \cap 0..ChMax(t, ch) IN
  /\ UsedBits(t) <= t.raw /\ t.raw \in {1, 2, 4, 8, 16, 24}
  /\ \A ch \in 1..NChan(t) : ChPos(t, ch) = PosT(t, ch) /\ ChMax(t, ch) = MaxT(t, ch)
  /\ IsRgb(t) => /\ {ChPos(t, 1), ChPos(t, 2), ChPos(t, 3)} = (IF t.bgr THEN {0, t.rb, t.rb + t.gb} ELSE {0, t.bb, t.bb + t.gb})
                 /\ Pack(t, <<ChMax(t, 1), ChMax(t, 2), ChMax(t, 3)>>) = 2 ^ UsedBits(t) - 1
                 /\ \A r \in B(1), g \in B(2), b \in B(3) :
                      /\ Unpack(t, Pack(t, <<r, g, b>>)) = <<r, g, b>>
                      /\ Pack(t, <<r, g, b>>) < 2 ^ UsedBits(t)
                 \* red is the most significant channel of an RGB type, blue of a BGR type
                 /\ IF t.bgr THEN Pack(t, <<0, 0, 1>>) > Pack(t, <<ChMax(t, 1), ChMax(t, 2), 0>>)
                             ELSE Pack(t, <<1, 0, 0>>) > Pack(t, <<0, ChMax(t, 2), ChMax(t, 3)>>)
=============================================================================
