------------------------------- MODULE P_C01 -------------------------------
(* Property C01 — one image per drawable, whichever drawing path the target   *)
(* offers.  An observation is the list of calls a drawable issued on          *)
(*   n  a target implementing all four DrawTarget methods natively,           *)
(*   d  a target implementing draw_iter only (the trait defaults ran),        *)
(*   p  (styled primitives) a draw_iter-only target fed with pixels().        *)
(* The meaning of the calls is EGTarget!Apply; the three resulting pixel maps *)
(* must be equal.                                                             *)
EXTENDS EGTarget

PathFails(box, n, d, hasp, p, trunc) ==
  LET fbN == ApplyAll(EmptyFb, box, n)
      fbD == ApplyAll(EmptyFb, box, d)
      fbP == ApplyAll(EmptyFb, box, p)
  IN   (IF fbN = fbD THEN {} ELSE {"native_vs_default_map_differs"})
  \cup (IF hasp = 0 \/ fbP = fbN THEN {} ELSE {"pixels_vs_draw_map_differs"})
  \cup (IF trunc = 0 THEN {} ELSE {"pixels_does_not_end"})
  \cup (IF \A i \in 1..Len(d) : d[i].m = "draw_iter" THEN {} ELSE {"default_target_saw_non_draw_iter"})

\* where two maps differ (for the verdict detail)
MapDiff(box, a, b) ==
  LET fa == ApplyAll(EmptyFb, box, a)  fb == ApplyAll(EmptyFb, box, b)
      D == { q \in (DOMAIN fa) \cup (DOMAIN fb) :
               (q \in DOMAIN fa) # (q \in DOMAIN fb) \/ (q \in DOMAIN fa /\ q \in DOMAIN fb /\ fa[q] # fb[q]) }
  IN [n |-> Cardinality(D), first |-> IF D = {} THEN <<>> ELSE CHOOSE q \in D : TRUE]
=============================================================================
