//! egv — recording harness for the TLA+ trace validation of embedded-graphics.
//!
//! This crate contains NO oracle.  Drivers enumerate case descriptors, run the real library and
//! record what happens at its interfaces as NDJSON events.  All judging is done by the TLA+ trace
//! specifications in /verif/spec (see DESIGN.md §3.2).
#![allow(clippy::all)]

pub mod catalog;
pub mod drawables;
pub mod fonts_table;
pub mod rec;
pub mod rng;
pub mod shapes;
pub mod stackprobe;
pub mod stacks;
pub mod targets;
pub mod util;
pub mod webcolors_table;

pub use rec::{Args, Rec};
pub use rng::Rng;
pub use serde_json::{json, Value};
