P = dict(
    bin="egv_c04", trace="Trace_C04", level="fault_enumeration",
    mc=[dict(module="MC_C04", quick_cfg="MC_C04.cfg", workers=4),
        dict(module="MC_C04", quick_cfg="MC_C04_control1.cfg", expect_violation=True, coverage=False, workers=4),
        dict(module="MC_C04", quick_cfg="MC_C04_control2.cfg", expect_violation=True, coverage=False, workers=4)],
    required_events=["ref", "faults"],
    level_text="for every drawable/target configuration of the catalogue the fault-free run is recorded and then EVERY run in "
               "which the k-th call on the underlying target fails (k = 1..n); TLC validates each run against the error "
               "protocol of EGFault (calls = reference prefix, nothing after the failure, Err(k) returned unchanged); "
               "MC_C04 model-checks the ?-loop protocol incl. two negative controls",
    level_note="trusted: the fault-injecting logging targets (fail call k at entry with token k); completed calls are compared "
               "by method, scalar arguments, item count and a 31-bit FNV hash of the consumed items",
    rule="one case per (drawable, native/default target, adapter stack); each case runs all k = 1..n faulty runs "
         "(counted in harness_notes.faulty_runs); non-trivial = n >= 1; distinct = distinct descriptor",
    trusted=COMMON_TRUSTED + ["spec/EGFault.tla", "harness/src/targets.rs fault injection"],
)
