CONSTANTS
  Wide = FALSE
SPECIFICATION Spec
INVARIANT Fits
CHECK_DEADLOCK FALSE
