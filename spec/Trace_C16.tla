------------------------------ MODULE Trace_C16 -----------------------------
(* (T) for C16: every recorded Rectangle call of the real library is checked  *)
(* against the property-level predicates of P_C16.                            *)
EXTENDS TraceBase, P_C16
VARIABLE l

Init == l = 1

StepCase(e) == e.ev = "case"
StepBin(e) ==
  /\ e.ev = "bin"
  /\ \A i \in 1..Len(e.items) :
       LET it == e.items[i] IN
       /\ Report(e.case, BinFails(it[1], it[2], it[3], it[4], it[5]), it)
       /\ DriftReport(e.case, it[3] = Intersection(it[1], it[2]) /\ it[4] = Intersection(it[2], it[1]) /\ it[5] = Envelope(it[1], it[2]),
                      "intersection_or_envelope_transcription", it)
StepFarBin(e) ==
  /\ e.ev = "farbin"
  /\ \A i \in 1..Len(e.items) :
       LET it == e.items[i] IN Report(e.case, FarFails(it[1], it[2], it[3], it[4], it[5]), it)
StepEdge(e) ==
  /\ e.ev = "edge"
  /\ \A i \in 1..Len(e.items) : Report(e.case, EdgeFails(e.items[i]), e.items[i])
  /\ \A i \in 1..Len(e.pairs) : Report(e.case, EdgeBinFails(e.pairs[i]), e.pairs[i])
  /\ \A i \in 1..Len(e.far) : Report(e.case, FarCornersFails(e.far[i]), e.far[i])
\* a Rectangle method panicked: the property promises a result for every pair of representable rectangles
StepPanic(e) == e.ev = "panic" /\ Report(e.case, {"library_call_panicked"}, [msg |-> e.msg, loc |-> e.loc])
StepUn(e) ==
  /\ e.ev = "un"
  /\ Report(e.case, UnFails(e.r, e), [r |-> e.r])
  /\ DriftReport(e.case,
       /\ e.center = Center(e.r) /\ e.br = BottomRight(e.r) /\ e.wc = WithCenter(Center(e.r), SizeOf(e.r))
       /\ \A a \in 1..9 : e.anchors[a] = AnchorPoint(e.r, a)
       /\ \A i \in 1..Len(e.resized) : e.resized[i][4] = Resized(e.r, <<e.resized[i][1], e.resized[i][2]>>, e.resized[i][3])
       /\ \A i \in 1..Len(e.rw) : e.rw[i][3] = ResizedWidth(e.r, e.rw[i][1], e.rw[i][2])
       /\ \A i \in 1..Len(e.rh) : e.rh[i][3] = ResizedHeight(e.r, e.rh[i][1], e.rh[i][2])
       /\ \A i \in 1..Len(e.off) : e.off[i][2] = Offset(e.r, e.off[i][1])
       /\ (e.pts_logged = 0 \/ e.points = PointsSeq(e.r))
       /\ \A i \in 1..Len(e.probes) : (e.probes[i][3] = 1) = ContainsT(e.r, <<e.probes[i][1], e.probes[i][2]>>),
       "rectangle_method_transcription", [r |-> e.r])

StepXRes(e) == e.ev = "xres" /\ Report(e.case, XResFails(e.r, e.items), [r |-> e.r, items |-> e.items])
Next == /\ l <= NRec
        /\ LET e == Rec[l] IN StepCase(e) \/ StepBin(e) \/ StepFarBin(e) \/ StepEdge(e) \/ StepUn(e) \/ StepXRes(e) \/ StepPanic(e)
        /\ l' = l + 1
Spec == Init /\ [][Next]_l

Done == IF TLCGet("stats").diameter = NRec + 1
        THEN PrintT("TRACE-ACCEPTED " \o ToString(NRec))
        ELSE PrintT("TRACE-REJECTED at line " \o ToString(TLCGet("stats").diameter)) /\ FALSE
=============================================================================
