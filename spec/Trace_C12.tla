------------------------------ MODULE Trace_C12 -----------------------------
(* (T) for C12: every recorded row of colour values / raw values of the real  *)
(* library is judged by the property-level predicates of P_C12.               *)
EXTENDS TraceBase, P_C12
VARIABLE l

Init == l = 1

StepCase(e) == e.ev = "case"
RowDetail(e, k) ==
  IF k = 0 THEN [ev |-> "row", ty |-> e.ty, ch |-> e.ch, fix |-> e.fix, k |-> 0, bits |-> e.bits]
  ELSE LET nb == IF e.bits <= 8 THEN 1 ELSE e.bits \div 8 IN
       [ev |-> "row", ty |-> e.ty, ch |-> e.ch, fix |-> e.fix, k |-> k, arg |-> e.a0 + k - 1,
        raw |-> e.raw[k], sto |-> e.sto[k], col |-> ObsCol(Types[e.ty], e, k),
        be |-> SubSeq(e.be, (k - 1) * nb + 1, k * nb), le |-> SubSeq(e.le, (k - 1) * nb + 1, k * nb),
        beq |-> e.beq[k], braw |-> e.braw[k]]
\* BinaryColor: no storage layout is documented, On = 1 is only what the code does: a drift item
BinDrift(e) ==
  IF e.ty = "BinaryColor" /\ \E k \in 1..e.n : e.raw[k] # e.c1[k]
  THEN PrintT("DRIFT " \o ToJson([module |-> "EGColor", what |-> "BinaryColor raw value differs from is_on()", raw |-> e.raw, on |-> e.c1]))
  ELSE TRUE
\* the raw type of a colour type is part of the table of EGColor, not of the property: drift only
BitsDrift(e) ==
  IF e.bits # Types[e.ty].raw
  THEN PrintT("DRIFT " \o ToJson([module |-> "EGColor", what |-> "BITS_PER_PIXEL differs from the table", ty |-> e.ty, bits |-> e.bits]))
  ELSE TRUE
StepRow(e) ==
  /\ e.ev = "row"
  /\ LET r == RowFails(e) IN Report(e.case, r.codes, RowDetail(e, r.k))
  /\ BinDrift(e)
  /\ BitsDrift(e)
StepRawRow(e) ==
  /\ e.ev = "rawrow"
  /\ LET r == RawRowFails(e) IN
     Report(e.case, r.codes,
            IF r.k = 0 THEN [ev |-> "rawrow", ty |-> e.ty, base |-> e.base, k |-> 0]
            ELSE [ev |-> "rawrow", ty |-> e.ty, base |-> e.base, k |-> r.k, x |-> e.base + r.k - 1,
                  rt |-> e.rt[r.k], rt2 |-> e.rt2[r.k], col |-> ObsCol(Types[e.ty], e, r.k)])

Next == /\ l <= NRec
        /\ LET e == Rec[l] IN StepCase(e) \/ StepRow(e) \/ StepRawRow(e)
        /\ l' = l + 1
Spec == Init /\ [][Next]_l

Done == IF TLCGet("stats").diameter = NRec + 1
        THEN PrintT("TRACE-ACCEPTED " \o ToString(NRec))
        ELSE PrintT("TRACE-REJECTED at line " \o ToString(TLCGet("stats").diameter)) /\ FALSE
=============================================================================
