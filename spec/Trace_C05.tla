------------------------------ MODULE Trace_C05 -----------------------------
(* (T) for C05: each recorded shape (bounding box, points() sequence,         *)
(* contains() probes) is checked against P_C05.                               *)
EXTENDS TraceBase, P_C05
VARIABLE l
Init == l = 1
StepCase(e)  == e.ev = "case"
StepShape(e) == e.ev = "shape" /\ Report(e.case, ShapeFails(e), [bbox |-> e.bbox, np |-> e.np, nc |-> e.nc])
\* a library call of this case panicked: the property promises a result for every input of its domain
StepPanic(e) == e.ev = "panic" /\ Report(e.case, {"library_call_panicked"}, [msg |-> e.msg, loc |-> e.loc])
Next == /\ l <= NRec
        /\ LET e == Rec[l] IN StepCase(e) \/ StepShape(e) \/ StepPanic(e)
        /\ l' = l + 1
Spec == Init /\ [][Next]_l
Done == IF TLCGet("stats").diameter = NRec + 1
        THEN PrintT("TRACE-ACCEPTED " \o ToString(NRec))
        ELSE PrintT("TRACE-REJECTED at line " \o ToString(TLCGet("stats").diameter)) /\ FALSE
=============================================================================
