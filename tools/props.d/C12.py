P = dict(
    bin="egv_c12", trace="Trace_C12", level="model_checking",
    mc=[dict(module="MC_C12", quick_cfg="MC_C12.cfg", thorough_cfg="MC_C12.cfg")],
    required_events=["row", "rawrow"],
    level_text="TLC runs the transcribed colour code (new / accessors / From<Raw> / Into<Raw> / byte views) over every colour and every "
               "raw value of every type up to 16 bits and boundary rows of the 24-bit types against the documented table of channel "
               "widths and positions; the real library is run over every colour value and every raw value (quick: all types up to 18 "
               "used bits exhaustively, 24-bit types on structured + seeded rows; thorough: everything) and every recorded value is "
               "validated by TLC against the same predicates",
    level_note="trusted: EGColor table (channel widths / positions from the type names and documentation), P_C12, recorder egv_c12",
    rule="cases: batches of up to 128 rows; a row = one channel swept over its values (or all 256 u8 arguments) with the other "
         "arguments fixed, or 256 consecutive raw values; distinct = distinct case descriptor; every case converts colours, so all "
         "count as non-trivial; harness notes colour_values / raw_values count the individual values",
    trusted=COMMON_TRUSTED + ["spec/EGColor.tla abstract part (type table, Pack/Unpack, byte views) and spec/P_C12.tla"],
    exhaustive=dict(thorough=True),
)
