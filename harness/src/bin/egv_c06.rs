//! C06 recorder: styled closed shapes vs the public fill_area() / stroke_area() hit testing.
use egv::catalog;
use egv::shapes::*;
use egv::targets::*;
use egv::util::*;
use egv::*;
use embedded_graphics::{
    Pixel,
    pixelcolor::Rgb565,
    prelude::*,
    primitives::{ContainsPoint, Rectangle},
};
use std::collections::BTreeSet;

type C = Rgb565;

/// (fill_area, stroke_area) of the styled shape as Shapes
fn areas(s: &Shape, st: &embedded_graphics::primitives::PrimitiveStyle<C>) -> (Shape, Shape) {
    match s {
        Shape::Rect(p) => (Shape::Rect(p.into_styled(*st).fill_area()), Shape::Rect(p.into_styled(*st).stroke_area())),
        Shape::Circle(p) => (Shape::Circle(p.into_styled(*st).fill_area()), Shape::Circle(p.into_styled(*st).stroke_area())),
        Shape::Ellipse(p) => (Shape::Ellipse(p.into_styled(*st).fill_area()), Shape::Ellipse(p.into_styled(*st).stroke_area())),
        Shape::RRect(p) => (Shape::RRect(p.into_styled(*st).fill_area()), Shape::RRect(p.into_styled(*st).stroke_area())),
        _ => panic!("not a closed shape"),
    }
}

fn probe(s: &Shape, region: &Rectangle) -> BTreeSet<(i32, i32)> {
    let mut c = BTreeSet::new();
    for p in region.points() {
        if s.contains(p) {
            c.insert((p.y, p.x));
        }
    }
    c
}

fn run_case(rec: &mut Rec, d: &Value) {
    rec.begin(d.clone());
    let s = Shape::from_desc(&d["shape"]);
    let st = style_from::<C>(&d["style"]);
    let r = catch(|| {
        let (fa, sa) = areas(&s, &st);
        let fb = fa.bounding_box();
        let sb = sa.bounding_box();
        let shb = s.bounding_box();
        // probe region: envelope of the three boxes grown by 2
        let env = sb.envelope(&shb).envelope(&fb).offset(2);
        let f = probe(&fa, &env);
        let sset = probe(&sa, &env);
        let c = probe(&s, &env);
        let mut t = MapTarget::<C>::new();
        s.draw(&st, &mut t).unwrap();
        let (px, done) = s.pixels(&st, 2_000_000);
        // pixels() through count / last / nth / size_hint / mixed consumption (small shapes)
        let pproto = if done && px.len() <= 250 {
            json!({"seq": pts_json(px.iter().map(|Pixel(p, _)| *p)), "proto": s.pixels_protocol(&st, 1 + px.len() % 3)})
        } else {
            json!({})
        };
        let mut tp = MapTarget::<C>::new();
        tp.draw_iter(px.into_iter()).unwrap();
        // the same draw() on targets that REPORT a small window as their bounding box (everything they receive is
        // logged): the bottom-right and the top-left part of the stroke area, the strip right of / below the shape's
        // own box (only an outside stroke reaches it), an empty window
        let (w, h) = (sb.size.width.max(1) as i32, sb.size.height.max(1) as i32);
        let big = Size::new(w as u32 + 3, h as u32 + 3);
        let wins = [
            Rectangle::new(sb.top_left + Point::new(w / 2, h / 2), big),
            Rectangle::new(sb.top_left - Point::new(w / 2 + 3, h / 2 + 3), big),
            Rectangle::new(shb.top_left + Point::new(shb.size.width as i32, -2), big),
            Rectangle::new(shb.top_left + Point::new(-2, shb.size.height as i32), big),
            Rectangle::new(sb.top_left + Point::new(w / 2, h / 2), Size::zero()),
            // a target that is exactly as large as the shape / as its stroke area
            shb,
            sb,
        ];
        let mut wobs = vec![];
        for wbox in wins {
            let mut tw = MapTarget::<C>::with_box(wbox);
            s.draw(&st, &mut tw).unwrap();
            wobs.push(json!({"box": rect_json(&wbox), "map": cruns_of(&tw.map)}));
        }
        (fb, sb, shb, env, f, sset, c, t, tp, done, wobs, pproto)
    });
    match r {
        Ok((fb, sb, shb, env, f, sset, c, t, tp, done, wobs, pproto)) => {
            if !t.map.is_empty() {
                rec.nontrivial();
            }
            if fb.is_zero_sized() && !sb.is_zero_sized() {
                rec.note("collapsed_fill_area_cases");
            }
            rec.ev(
                "styled",
                json!({"kind": s.kind(), "style": d["style"], "radii": radii_small(&d["shape"]), "shape_box": rect_json(&shb), "fill_box": rect_json(&fb),
                    "stroke_box": rect_json(&sb), "region": rect_json(&env), "F": runs_of(&f), "S": runs_of(&sset), "C": runs_of(&c),
                    "draw": cruns_of(&t.map), "pixels": cruns_of(&tp.map), "trunc": (!done) as i32, "wins": wobs, "pproto": pproto}),
            );
        }
        Err(p) => {
            rec.note("panicked_cases");
            rec.ev("panic", json!({"msg": p.msg, "loc": p.loc}));
        }
    }
}

/// the stored corner radii of a rounded rectangle (for the DRIFT comparison with EGStyledCurve); [] for other shapes
/// and for radii too large for the specification's 32-bit integers
fn radii_small(shape: &Value) -> Value {
    match shape["radii"].as_array() {
        Some(a) if a.len() == 4 && a.iter().all(|r| r.as_array().map_or(false, |p| p.len() == 2 && p.iter().all(|v| v.as_u64().map_or(false, |u| u < (1 << 20))))) => shape["radii"].clone(),
        _ => json!([]),
    }
}

fn main() {
    let args = Args::parse();
    install_panic_hook();
    let mut rec = Rec::new(&args);
    let mut rng = Rng::new(args.seed ^ 0xC06);
    let th = args.thorough();
    if let Some(cases) = &args.cases {
        for d in cases {
            run_case(&mut rec, d);
        }
        rec.finish(json!({}));
        return;
    }
    for d in args.gen.iter().chain(args.witnesses.iter()) {
        run_case(&mut rec, d);
    }
    let col = catalog::colors_for("Rgb565");
    let widths: Vec<u32> = if th { (0..=12).chain([15, 20, 30]).collect() } else { (0..=7).collect() };
    let styles = catalog::styles(&col, &widths);
    // sizes up to 10x10 (quick) so that the fill collapses in width, in height, in both
    let mut shapes: Vec<Value> = vec![];
    let m = if th { 16 } else { 10 };
    for w in 0..=m {
        for h in 0..=m {
            if !th && (w > 6 && h > 6) && (w + h) % 2 == 1 {
                continue;
            }
            shapes.push(json!({"k":"rect","r":[-2, 3, w, h]}));
            shapes.push(json!({"k":"ellipse","tl":[1, -4],"size":[w, h]}));
            for (ri, r) in [[(0u32, 0u32); 4], [(1, 1); 4], [(2, 3); 4], [(3, 1), (1, 2), (0, 0), (2, 2)], [(20, 20); 4], [(1, 10); 4]].iter().enumerate() {
                if w == 0 || h == 0 || (!th && (w * 3 + h + ri as u32) % 2 == 1) {
                    continue;
                }
                shapes.push(json!({"k":"rrect","r":[0, 0, w, h],"radii":[[r[0].0,r[0].1],[r[1].0,r[1].1],[r[2].0,r[2].1],[r[3].0,r[3].1]]}));
            }
        }
    }
    for d in 0..=(if th { 40 } else { 16 }) {
        shapes.push(json!({"k":"circle","tl":[-3, -3],"d":d}));
    }
    // two thirds of the shapes are moved away from the origin: into the positive and into the negative quadrant
    for (n, s) in shapes.iter_mut().enumerate() {
        let by = [(0, 0), (41, 33), (-47, -39)][n % 3];
        let key = if s.get("r").is_some() { "r" } else { "tl" };
        s[key][0] = json!(i(&s[key][0]) + by.0);
        s[key][1] = json!(i(&s[key][1]) + by.1);
    }
    // inside strokes far wider than any shape, up to u32::MAX (recorded as "w": 2^20 - for an inside stroke every
    // width >= the shape's sides gives the same areas - with the real width in "wreal")
    for (n, wreal) in [0x7FFF_FFFFu32, 0x8000_0001, 0xC000_0000, u32::MAX - 1, u32::MAX, 1 << 20].into_iter().enumerate() {
        for shape in [json!({"k":"rect","r":[3, -2, 7, 5]}), json!({"k":"circle","tl":[-3, 4],"d":9}), json!({"k":"ellipse","tl":[2, 2],"size":[8, 5]}),
                      json!({"k":"rrect","r":[-6, -6, 9, 8],"radii":[[2, 2], [1, 3], [0, 0], [4, 4]]})] {
            let (f, sc) = [(col.fill, col.stroke), (-1, col.stroke), (col.fill, -1)][n % 3];
            let mut st = style_desc(f, sc, 1 << 20, 0);
            st["wreal"] = json!(wreal.to_string());
            run_case(&mut rec, &json!({"shape": shape, "style": st}));
        }
    }
    // a few display-scale shapes (fill / stroke areas of 140 and more; the hit tests themselves are C05's business,
    // which has many more of these - the set-based predicate of C06 is expensive on 20 000-point sets)
    for (shape, st) in [(json!({"k":"circle","tl":[-70, -3],"d":140}), style_desc(col.fill, -1, 0, 1)),
                        (json!({"k":"circle","tl":[-60, 9],"d":146}), style_desc(col.fill, col.stroke, 3, 0)),
                        (json!({"k":"circle","tl":[5, -90],"d":140}), style_desc(-1, col.stroke, 7, 2)),
                        (json!({"k":"ellipse","tl":[-9, -70],"size":[150, 141]}), style_desc(col.fill, col.stroke, 4, 1)),
                        (json!({"k":"rrect","r":[-80, 2, 160, 150],"radii":[[60, 50], [20, 70], [90, 75], [5, 40]]}), style_desc(col.fill, col.stroke, 5, 1))] {
        run_case(&mut rec, &json!({"shape": shape, "style": st}));
    }
    for (n, s) in shapes.iter().enumerate() {
        for (k, st) in styles.iter().enumerate() {
            // quick: a rotating quarter of the style product for every shape; thorough: full product
            if th || (n + k) % 4 == 0 {
                run_case(&mut rec, &json!({"shape": s, "style": st}));
            }
        }
    }
    // extreme aspect ratios with wide strokes: thin-tall and flat-wide ellipses / rounded rectangles / rectangles
    // (rows far from the centre where the gap between the stroke and fill outlines is smaller than the stroke)
    {
        let longs: Vec<u32> = if th { vec![16, 20, 25, 30, 39, 40, 55] } else { vec![20, 30, 40] };
        let mut n = 0usize;
        for thin in 1..=9u32 {
            for &long in &longs {
                for w in 1..=8u32 {
                    for al in 0..3u32 {
                        n += 1;
                        let (a, b) = if n % 2 == 0 { (thin, long) } else { (long, thin) };
                        let (f, s) = [(col.fill, col.stroke), (-1, col.stroke), (col.fill, col.fill)][n % 3];
                        let shape = match (n / 2) % 4 {
                            0 | 1 => json!({"k":"ellipse","tl":[-4, 2],"size":[a, b]}),
                            2 => json!({"k":"rrect","r":[-4, 2, a, b],"radii":[[thin / 2 + 1, long / 3], [thin, thin], [long / 2, 2], [1, 1]]}),
                            _ => json!({"k":"rect","r":[-4, 2, a, b]}),
                        };
                        run_case(&mut rec, &json!({"shape": shape, "style": style_desc(f, s, w, al)}));
                    }
                }
            }
        }
    }
    // rounded rectangles with ELLIPTICAL corners: narrow tall / flat wide quadrants, left and right (top and bottom)
    // corners that differ only in one radius, corners as wide as the shape - on narrow, tall, flat and medium rectangles,
    // thin strokes of every alignment, stroke only / fill only / both
    {
        let rset: [(u32, u32); 9] = [(0, 0), (1, 6), (2, 9), (4, 9), (3, 12), (3, 8), (2, 6), (9, 2), (12, 3)];
        let sizes: [(u32, u32); 9] = [(12, 30), (24, 16), (4, 20), (6, 24), (1, 14), (2, 15), (30, 5), (16, 16), (7, 40)];
        let mut n = 0usize;
        for &(w, h) in &sizes {
            for (ia, a) in rset.iter().enumerate() {
                for (ib, b) in rset.iter().enumerate() {
                    // left / right pairs, top / bottom pairs, one odd corner
                    for (kq, radii) in [[*a, *b, *b, *a], [*a, *a, *b, *b], [*a, *b, *a, *b], [*a, *a, *a, *b]].iter().enumerate() {
                        n += 1;
                        if !th && (n + ia + 2 * ib) % 2 != 0 {
                            continue;
                        }
                        let sw = [1u32, 2, 4, 1, 3][(n / 3) % 5];
                        let al = ((n / 7) % 3) as u32;
                        let (f, sc) = [(col.fill, col.stroke), (-1, col.stroke), (col.fill, -1), (col.fill, col.fill)][(n / 5 + kq) % 4];
                        let shape = json!({"k":"rrect","r":[3, 2, w, h],"radii":[[radii[0].0, radii[0].1], [radii[1].0, radii[1].1], [radii[2].0, radii[2].1], [radii[3].0, radii[3].1]]});
                        run_case(&mut rec, &json!({"shape": shape, "style": style_desc(f, sc, sw, al)}));
                    }
                }
            }
        }
    }
    // seeded larger shapes
    let nseed = if th { 20000 } else { 800 };
    for _ in 0..nseed {
        let m = if rng.chance(1, 4) { 60 } else { 24 };
        let (w, h) = (rng.u32r(0, m), rng.u32r(0, m));
        let (x, y) = (rng.i32(-9, 9), rng.i32(-9, 9));
        let shape = match rng.u32r(0, 3) {
            0 => json!({"k":"rect","r":[x, y, w, h]}),
            1 => json!({"k":"circle","tl":[x, y],"d":w}),
            2 => json!({"k":"ellipse","tl":[x, y],"size":[w, h]}),
            _ => {
                let mut rr = || json!([rng.u32r(0, m / 2 + 2), rng.u32r(0, m / 2 + 2)]);
                json!({"k":"rrect","r":[x, y, w, h],"radii":[rr(), rr(), rr(), rr()]})
            }
        };
        let sw = if rng.chance(1, 3) { rng.u32r(0, m) } else { rng.u32r(0, 6) };
        let (f, s) = [(col.fill, col.stroke), (col.fill, -1), (-1, col.stroke), (col.fill, col.fill)][rng.usize(0, 3)];
        run_case(&mut rec, &json!({"shape": shape, "style": style_desc(f, s, sw, rng.u32r(0, 2))}));
    }
    rec.finish(json!({}));
}
