CONSTANTS
  WMax = 5
  HMax = 4
  BppSet = {1}
  Variant = "pinned"
  Gen = FALSE
SPECIFICATION Spec
INVARIANTS DrawOK StreamOK EndsOK PixelTOK NewTOK ChainOK
CHECK_DEADLOCK FALSE
