CONSTANTS
  WMax = 6
  HMax = 5
  BppSet = {1, 2, 4, 8, 16, 24, 32}
  Variant = "patched"
  Gen = TRUE
SPECIFICATION Spec
INVARIANTS DrawOK StreamOK EndsOK PixelTOK NewTOK ChainOK
CHECK_DEADLOCK FALSE
