------------------------------ MODULE EGThickTri -----------------------------
(* TRANSCRIBED: stroked (and filled) triangles, all three stroke alignments    *)
(* (al = 0 Inside -> StrokeOffset::Right, 1 Center -> None, 2 Outside -> Left; *)
(* common/mod.rs:36-44), incl. the "collapsed" case of inside strokes.         *)
(*   triangle/styled.rs:92-156            draw_styled, styled_bounding_box     *)
(*   triangle/scanline_iterator.rs        rows of the styled box; the          *)
(*                                        iteration ENDS at the first row that *)
(*                                        yields no line                       *)
(*   triangle/scanline_intersections.rs   edge_intersections (left / right     *)
(*                                        merging), generate_lines (fill       *)
(*                                        between the two stroke ranges)       *)
(*   common/closed_thick_segment_iter.rs  the three segments of the box        *)
(*   triangle/mod.rs:239-285              joins, is_collapsed                  *)
(* Scanlines <<x0, x1>> half open as in EGThick.                               *)
EXTENDS EGThick, EGTriangle

V(t, k) == t[((k - 1) % 3) + 1]                      \* vertices, 1-based, cyclic
\* the join at vertex k (between edge k-1 -> k and edge k -> k+1)
OffOf(al) == CASE al = 0 -> "R" [] al = 1 -> "N" [] OTHER -> "L"
TriJoinT(t, k, w, off) == JoinFromPointsT(V(t, k + 2), V(t, k), V(t, k + 1), w, off)
\* edge_intersections (:78-127) visits the edges v2->v3, v3->v1, v1->v2 of the clockwise sorted triangle
TriSegsT(t, w, off) == LET j == [k \in 1..3 |-> TriJoinT(t, k, w, off)] IN << <<j[2], j[3]>>, <<j[3], j[1]>>, <<j[1], j[2]>> >>
Hull2(a, b) == <<Min(a[1], b[1]), Max(a[2], b[2])>>
RECURSIVE EdgeFold(_, _, _, _, _)
EdgeFold(segs, i, y, left, right) ==
  IF i > 3 THEN <<left, right>>
  ELSE LET sc == SegIntersectionT(segs[i], y) IN
       IF ~ScIsEmpty(left)
       THEN IF TouchesT(left, sc) THEN EdgeFold(segs, i + 1, y, Hull2(left, sc), right)
            ELSE IF ~ScIsEmpty(right)
                 THEN EdgeFold(segs, i + 1, y, left, IF TouchesT(right, sc) THEN Hull2(right, sc) ELSE right)
                 ELSE EdgeFold(segs, i + 1, y, left, sc)
       ELSE EdgeFold(segs, i + 1, y, sc, right)
\* the sequence of (at most two) stroke ranges of row y
EdgeIntersectionsT(segs, w, y) ==
  IF w = 0 THEN <<>>
  ELSE LET lr == EdgeFold(segs, 1, y, ScEmpty, ScEmpty)
           merged == TouchesT(lr[1], lr[2])
           l == IF merged THEN Hull2(lr[1], lr[2]) ELSE lr[1]
           r == IF merged THEN ScEmpty ELSE lr[2] IN
       (IF ScIsEmpty(l) THEN <<>> ELSE <<l>>) \o (IF ScIsEmpty(r) THEN <<>> ELSE <<r>>)
\* generate_lines (:129-190), not collapsed: [fill, strokes]
\* Triangle::is_collapsed for the clockwise sorted triangle (mod.rs:253-285) and the guard of
\* ScanlineIntersections::new (:45-47): an inside stroke that covers the whole interior
IsCollapsedT(tc, w, off) ==
  /\ w > 0 /\ off = "R"
  /\ \E i \in 1..3 :
       LET j == TriJoinT(tc, i, w, off) IN
       \/ j.kind = "Degenerate"
       \/ CheckSide(LinEq(ExtR(ExtentsO(V(tc, i + 1), V(tc, i + 2), w, off))), j.fee.r, "L")
\* collapsed: the whole row of the triangle, typed Stroke (generate_lines :131-137)
TriRowT(tc, segs, w, hasFill, y, collapsed) ==
  LET es == IF collapsed THEN <<>> ELSE EdgeIntersectionsT(segs, w, y)
      tri == LET s == TriScanline(tc, y) IN <<s[2], s[3]>>
      fill == IF ~hasFill THEN ScEmpty
              ELSE IF Len(es) = 2 THEN <<Min(es[1][2], es[2][2]), Max(es[1][1], es[2][1])>>
              ELSE IF Len(es) = 0 THEN tri ELSE ScEmpty
  IN IF collapsed THEN [fill |-> ScEmpty, strokes |-> IF ScIsEmpty(tri) THEN <<>> ELSE <<tri>>]
     ELSE [fill |-> fill, strokes |-> es]
RowIsEmpty(r) == ScIsEmpty(r.fill) /\ r.strokes = <<>>

\* styled_bounding_box for Center / Outside alignment and stroke width >= 2 (styled.rs:130-156)
TriThickBoxT(t, w, off) ==
  LET tc == SortedClockwise(t)
      j == [k \in 1..3 |-> TriJoinT(tc, k, w, off)]
      segs == << <<j[1], j[2]>>, <<j[2], j[3]>>, <<j[3], j[1]>> >>          \* ClosedThickSegmentIter
  IN HullOfBoxes([i \in 1..3 |-> EdgesBoxT(segs[i], FALSE)], 1, <<>>)
\* the rows draw_styled renders, in order, up to (excluding) the first row without any line
RECURSIVE TriRowsFrom(_, _, _, _, _, _, _, _)
TriRowsFrom(tc, segs, w, hasFill, y, yEnd, acc, col) ==
  IF y >= yEnd THEN acc
  ELSE LET r == TriRowT(tc, segs, w, hasFill, y, col) IN
       IF RowIsEmpty(r) THEN acc ELSE TriRowsFrom(tc, segs, w, hasFill, y + 1, yEnd, Append(acc, [y |-> y, fill |-> r.fill, strokes |-> r.strokes]), col)
\* styled.rs:131-134: stroke widths 0 and 1 use the triangle's own bounding box
TriStyledBoxT(t, w, al) == IF w < 2 \/ al = 0 THEN TriBox(t) ELSE TriThickBoxT(t, w, OffOf(al))
TriThickRowsT(t, w, hasFill, al) ==
  LET tc == SortedClockwise(t)  b == TriStyledBoxT(t, w, al) IN
  TriRowsFrom(tc, TriSegsT(tc, w, OffOf(al)), w, hasFill, b[2], b[2] + b[4], <<>>, IsCollapsedT(tc, w, OffOf(al)))
\* every point that receives a colour: fill ranges if a fill colour is set, stroke ranges if the stroke is visible
TriThickSetT(t, w, hasFill, hasStroke, al) ==
  LET rows == TriThickRowsT(t, w, hasFill, al) IN
  UNION { (IF hasFill THEN { <<x, rows[i].y>> : x \in rows[i].fill[1]..(rows[i].fill[2] - 1) } ELSE {})
          \cup (IF hasStroke THEN UNION { { <<x, rows[i].y>> : x \in rows[i].strokes[k][1]..(rows[i].strokes[k][2] - 1) } : k \in 1..Len(rows[i].strokes) } ELSE {})
          : i \in 1..Len(rows) }
=============================================================================
