P = dict(
    features={"quick": [None, "fixed_point"], "thorough": [None, "fixed_point"]},
    bin="egv_c02", trace="Trace_C02", level="model_checking",
    mc=[dict(module="MC_C02", quick_cfg="MC_C02.cfg", workers=8, coverage=False),
        dict(module="MC_C02", quick_cfg="MC_C02_control.cfg", expect_violation=True, coverage=False, workers=8),
        # the primitive machines of C06 / C17 with C02's invariant checked in EVERY state (every prefix of the call sequence)
        dict(module="MC_C06", quick_cfg="MC_C02_rc.cfg", workers=8, coverage=False),
        dict(module="MC_C06", quick_cfg="MC_C02_rc_control.cfg", expect_violation=True, coverage=False, workers=4),
        dict(module="MC_C06e", quick_cfg="MC_C02_er.cfg", workers=8, coverage=False),
        dict(module="MC_C06e", quick_cfg="MC_C02_er_control.cfg", expect_violation=True, coverage=False, workers=4),
        dict(module="MC_C17", quick_cfg="MC_C02_line.cfg", workers=8, coverage=False),
        dict(module="MC_C17", quick_cfg="MC_C02_line_control.cfg", expect_violation=True, coverage=False, workers=4),
        # thick polylines: the transcribed scanline renderer (EGThick), one row per step; control = edges_bounding_box before D19
        dict(module="MC_C02p", quick_cfg="MC_C02p.cfg", thorough_cfg="MC_C02p_thorough.cfg", workers=10, thorough_timeout=3000, coverage=False),
        dict(module="MC_C02p", thorough_cfg="MC_C02p4.cfg", workers=10, coverage=False),
        dict(module="MC_C02p", quick_cfg="MC_C02p_control.cfg", expect_violation=True, coverage=False, workers=6),
        # centre-aligned thick triangle strokes with and without fill (EGThickTri), one row per step
        dict(module="MC_C02t", quick_cfg="MC_C02t.cfg", thorough_cfg="MC_C02t_thorough.cfg", workers=10, thorough_timeout=3000, coverage=False),
        dict(module="MC_C02t", thorough_cfg="MC_C02t_nofill.cfg", workers=10, coverage=False),
        dict(module="MC_C02t", quick_cfg="MC_C02t_control.cfg", expect_violation=True, coverage=False, workers=6)],
    required_events=["draw"], drift_checked=True,
    level_text="MC_C02 steps the transcribed Text::draw / draw_string machine (shared with MC_C15) over abstract fonts whose "
               "decorations lie below and inside the cell and checks after every step that the painted set is inside the "
               "transcribed bounding_box() (control: the snapshot's measure_string, D10, is refuted); the styled rectangle / circle (MC_C06), ellipse / rounded rectangle (MC_C06e) and stroked line (MC_C17 with the transcribed Line::extents) machines are run with the invariant 'everything painted so far lies inside the transcribed styled_bounding_box(), a transparent style paints nothing' (three controls: the stroke forgotten, a one-sided line box); MC_C02p renders THICK POLYLINES with the transcribed scanline renderer (EGThick: line joins, thick segments, Bresenham intersections, scanline merging; all vertex triples of a grid x widths) row by row and checks every scanline against the transcribed styled bounding box - TLC finds the witness of defect D19 by itself when given edges_bounding_box as it was before the repair (control); Trace_C02 compares bounding box and painted set of every small thick polyline of the run with that transcription (DRIFT, 0 on this tree); MC_C02t does the same for centre-aligned thick TRIANGLE strokes with and without fill (EGThickTri: the three thick segments, left / right merging, fill between the stroke ranges, the iteration that ends at the first empty row; control: the stroke forgotten in the box), bound by the same DRIFT comparison; TLC checks for every recorded drawable that all points written on an unbounded target lie inside "
               "bounding_box() and that transparent styles write nothing: the styled-primitive / image catalogue, wide strokes "
               "on lines, triangles and polylines, and text in EVERY built-in font x strings x baselines x alignments x "
               "colour/decoration combinations x line heights",
    level_note="trusted: P_C02, MapTarget, run encoding; tightness of the box is not checked",
    rule="one case per (drawable descriptor, colour type); non-trivial = at least one pixel written; distinct = distinct descriptor",
    trusted=COMMON_TRUSTED + ["spec/P_C02.tla", "harness MapTarget"],
)
