------------------------------ MODULE Trace_C18 -----------------------------
(* (T) for C18: recorded point sets of curved primitives checked against the  *)
(* ideal curves and against each other (P_C18).                               *)
EXTENDS TraceBase, P_C18
VARIABLE l
Init == l = 1
StepCase(e)    == e.ev = "case"
StepCurve(e)   == e.ev = "curve" /\ Report(e.case, CurveFails(e), [kind |-> e.kind, box |-> e.box, rad |-> e.rad])
StepEq(e)      == e.ev = "eq" /\ Report(e.case, EqFails(e), [what |-> e.what])
StepConfine(e) == e.ev = "confine" /\ Report(e.case, ConfineFails(e), [size |-> e.size, rout |-> e.rout])
StepAng(e)     == e.ev = "ang" /\ Report(e.case, AngFails(e), [kind |-> e.kind, d |-> e.d, a0 |-> e.a0, sw |-> e.sw])
\* a library call of this case panicked: the property promises a result for every input of its domain
StepPanic(e) == e.ev = "panic" /\ Report(e.case, {"library_call_panicked"}, [msg |-> e.msg, loc |-> e.loc])
Next == /\ l <= NRec
        /\ LET e == Rec[l] IN StepCase(e) \/ StepCurve(e) \/ StepEq(e) \/ StepConfine(e) \/ StepAng(e) \/ StepPanic(e)
        /\ l' = l + 1
Spec == Init /\ [][Next]_l
Done == IF TLCGet("stats").diameter = NRec + 1
        THEN PrintT("TRACE-ACCEPTED " \o ToString(NRec))
        ELSE PrintT("TRACE-REJECTED at line " \o ToString(TLCGet("stats").diameter)) /\ FALSE
=============================================================================
