CONSTANTS
  G = 3
  Ws = {2, 3}
  PreD19 = FALSE
  D <- DQuick
  NV = 3
SPECIFICATION Spec
INVARIANTS RowInsideBox RowsNonEmpty Equivariant
CHECK_DEADLOCK FALSE
