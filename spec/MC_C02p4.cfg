CONSTANTS
  G = 2
  Ws = {2, 3}
  PreD19 = FALSE
  D <- DQuick
  NV = 4
SPECIFICATION Spec
INVARIANTS RowInsideBox RowsNonEmpty Equivariant
CHECK_DEADLOCK FALSE
