SPECIFICATION Spec
POSTCONDITION Done
CHECK_DEADLOCK FALSE
