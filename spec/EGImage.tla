------------------------------- MODULE EGImage ------------------------------
(* Raw images of embedded-graphics (ImageRaw, SubImage, Image).               *)
(*   format   bpp \in {1,2,4,8,16,24,32},  ord 0 = LittleEndianMsb0,          *)
(*            1 = BigEndianLsb0                                                *)
(*   image    [bpp, ord, w, h, data]   data = sequence of bytes (0..255)       *)
(*   option   <<>> = None, <<v>> = Some(v)   (pixel values are integers)       *)
(*   A 32-bit raw value is represented as the i32 with the same bit pattern    *)
(*   (TLC integers are 32 bit); narrower values are plain naturals.            *)
(* ABSTRACT part: the documented byte/bit layout (core/src/pixelcolor/raw/     *)
(* mod.rs:266-285, image_raw.rs:37-38 "the start of each row is aligned to the *)
(* next whole byte"), Pixel(img, p), the meaning of a chain of sub-images.     *)
(* TRANSCRIBED part: src/image/image_raw.rs, sub_image.rs, mod.rs and the raw  *)
(* iterator src/iterator/raw.rs, one operator per Rust item.  This module does *)
(* not depend on EGRaw (C11); the layout operators it needs are defined here.  *)
EXTENDS EGGeom

Bpps == {1, 2, 4, 8, 16, 24, 32}
Some(v) == <<v>>
NoneV == <<>>

---------------------------------------------------------------------------
(* ABSTRACT: documented layout *)
PPB(bpp) == 8 \div bpp                           \* pixels per byte, bpp < 8
BytesPerRow(w, bpp) == (w * bpp + 7) \div 8      \* rows padded to whole bytes
ExpectedLen(w, h, bpp) == BytesPerRow(w, bpp) * h

\* j-th pixel (0-based, left to right) of one byte, bpp < 8:
\* LittleEndianMsb0 uses the most significant bits first, BigEndianLsb0 the least significant
ValBits(byte, bpp, ord, j) ==
  LET sh == IF ord = 0 THEN (PPB(bpp) - 1 - j) * bpp ELSE j * bpp
  IN (byte \div (2 ^ sh)) % (2 ^ bpp)
S8(b) == IF b >= 128 THEN b - 256 ELSE b
\* value of the bytes b0.. (memory order) of one pixel, bpp >= 8:
\* LittleEndianMsb0 = least significant byte first, BigEndianLsb0 = most significant byte first
ValBytes(bpp, ord, d, k) ==   \* d: byte sequence, k: 0-based index of the pixel's first byte
  CASE bpp = 8  -> d[k + 1]
    [] bpp = 16 -> IF ord = 0 THEN d[k + 1] + 256 * d[k + 2] ELSE d[k + 2] + 256 * d[k + 1]
    [] bpp = 24 -> IF ord = 0 THEN d[k + 1] + 256 * d[k + 2] + 65536 * d[k + 3]
                              ELSE d[k + 3] + 256 * d[k + 2] + 65536 * d[k + 1]
    [] bpp = 32 -> IF ord = 0 THEN d[k + 1] + 256 * d[k + 2] + 65536 * d[k + 3] + 16777216 * S8(d[k + 4])
                              ELSE d[k + 4] + 256 * d[k + 3] + 65536 * d[k + 2] + 16777216 * S8(d[k + 1])

\* pixel #i of a byte string without row structure (the layout of C11); option
LoadAt(d, bpp, ord, i) ==
  IF bpp < 8
  THEN LET k == i \div PPB(bpp) IN
       IF k < Len(d) THEN Some(ValBits(d[k + 1], bpp, ord, i % PPB(bpp))) ELSE NoneV
  ELSE LET n == bpp \div 8 IN
       IF (i + 1) * n <= Len(d) THEN Some(ValBytes(bpp, ord, d, i * n)) ELSE NoneV

BoxOf(img) == <<0, 0, img.w, img.h>>
\* value of pixel p = <<x, y>> (inside the box) of a well-formed image: row y starts at byte
\* y * BytesPerRow, pixel x of the row by the layout above
Pixel(img, p) ==
  LET row == p[2] * BytesPerRow(img.w, img.bpp) IN
  IF img.bpp < 8
  THEN ValBits(img.data[row + (p[1] \div PPB(img.bpp)) + 1], img.bpp, img.ord, p[1] % PPB(img.bpp))
  ELSE ValBytes(img.bpp, img.ord, img.data, row + p[1] * (img.bpp \div 8))
\* GetPixel::pixel as the property states it
PixelOpt(img, p) == IF InRect(BoxOf(img), p) THEN Some(Pixel(img, p)) ELSE NoneV

\* ABSTRACT meaning of a chain of sub_image() calls: <<offset in root coordinates, size>> of the
\* pixels that remain; every requested area is relative to the sub-image it is applied to and
\* only its part inside that sub-image counts.  An empty result is <<<<0,0>>, <<0,0>>>>.
AbsSub(cur, a) ==   \* cur = <<off, size>>
  LET l == Max(0, a[1])  r == Min(cur[2][1], a[1] + a[3])
      t == Max(0, a[2])  b == Min(cur[2][2], a[2] + a[4])
  IN IF l < r /\ t < b THEN << <<cur[1][1] + l, cur[1][2] + t>>, <<r - l, b - t>> >>
     ELSE << <<0, 0>>, <<0, 0>> >>
RECURSIVE AbsChainFrom(_, _, _)
AbsChainFrom(cur, areas, i) == IF i > Len(areas) THEN cur ELSE AbsChainFrom(AbsSub(cur, areas[i]), areas, i + 1)
AbsChain(img, areas) == AbsChainFrom(<< <<0, 0>>, <<img.w, img.h>> >>, areas, 1)

---------------------------------------------------------------------------
(* TRANSCRIBED: src/iterator/raw.rs (RawDataIterator; state = index) *)
\* next() (raw.rs:91): <<item option, index'>>
RawNext(img, idx) ==
  LET v == LoadAt(img.data, img.bpp, img.ord, idx) IN <<v, IF v = NoneV THEN idx ELSE idx + 1>>
\* nth(n) (raw.rs:98)
RawNth(img, idx, n) == RawNext(img, idx + n)

(* TRANSCRIBED: src/image/image_raw.rs *)
\* ImageRaw::new (image_raw.rs:145): <<ok, expected_data_size>>
NewT(len, w, h, bpp) == <<len = BytesPerRow(w, bpp) * h, BytesPerRow(w, bpp) * h>>
\* data_width (image_raw.rs:185)
DataWidth(img) == IF img.bpp < 8 THEN BytesPerRow(img.w, img.bpp) * PPB(img.bpp) ELSE img.w
\* GetPixel::pixel (image_raw.rs:265)
PixelT(img, p) ==
  IF p[1] < 0 \/ p[2] < 0 \/ p[1] >= img.w \/ p[2] >= img.h THEN NoneV
  ELSE RawNth(img, 0, p[1] + p[2] * DataWidth(img))[1]

\* ContiguousPixels (image_raw.rs:277-343); state [idx, rx, ry, w, skip].
\* variant "pinned"  = the snapshot: remaining_y starts at the full height (image_raw.rs:306)
\* variant "patched" = work/patches/D4.diff: the first row is already counted
CPNew(img, size, initialSkip, rowSkip, variant) ==
  LET idx0 == IF initialSkip > 0 THEN RawNth(img, 0, initialSkip - 1)[2] ELSE 0 IN   \* :301
  IF variant = "pinned"
  THEN [idx |-> idx0, rx |-> size[1], ry |-> (IF size[1] > 0 THEN size[2] ELSE 0), w |-> size[1], skip |-> rowSkip]
  ELSE IF size[1] > 0 /\ size[2] > 0
       THEN [idx |-> idx0, rx |-> size[1], ry |-> size[2] - 1, w |-> size[1], skip |-> rowSkip]
       ELSE [idx |-> idx0, rx |-> 0, ry |-> 0, w |-> size[1], skip |-> rowSkip]
\* Iterator::next (image_raw.rs:326): <<item option, state'>>
CPNext(img, s) ==
  IF s.rx > 0
  THEN LET r == RawNext(img, s.idx) IN <<r[1], [s EXCEPT !.rx = @ - 1, !.idx = r[2]]>>
  ELSE IF s.ry = 0 THEN <<NoneV, s>>
  ELSE LET r == RawNth(img, s.idx, s.skip) IN
       <<r[1], [s EXCEPT !.ry = @ - 1, !.rx = s.w - 1, !.idx = r[2]]>>
\* number of items a draining consumer pulls before the first None (closed form of the machine
\* for a well-formed image and an area inside it; used for the drift statistic only)
CPCount(img, area, variant) ==
  IF area[3] = 0 \/ area[4] = 0 THEN 0
  ELSE IF variant = "pinned" /\ area[2] + area[4] < img.h THEN area[3] * (area[4] + 1)
  ELSE area[3] * area[4]

\* a target call, as an option: <<[area, cp]>> = fill_contiguous(area, ContiguousPixels); <<>> = no call
\* ImageDrawable::draw (image_raw.rs:209)
DrawRawT(img, variant) ==
  << [area |-> BoxOf(img), cp |-> CPNew(img, <<img.w, img.h>>, 0, DataWidth(img) - img.w, variant)] >>
\* ImageDrawable::draw_sub_image (image_raw.rs:221)
DrawSubRawT(img, a, variant) ==
  IF a[3] = 0 \/ a[4] = 0 \/ a[1] < 0 \/ a[2] < 0 \/ a[1] + a[3] > img.w \/ a[2] + a[4] > img.h
  THEN <<>>
  ELSE LET dw == DataWidth(img) IN
       << [area |-> <<0, 0, a[3], a[4]>>, cp |-> CPNew(img, <<a[3], a[4]>>, a[2] * dw + a[1], dw - a[3], variant)] >>

(* TRANSCRIBED: src/image/sub_image.rs *)
\* SubImage::new (sub_image.rs:30): the stored area, relative to the parent
SubNewT(parentSize, a) == Intersection(<<0, 0, parentSize[1], parentSize[2]>>, a)
\* the stored areas of a chain of sub_image() calls (each relative to its parent)
RECURSIVE StoredFrom(_, _, _, _)
StoredFrom(psize, areas, i, acc) ==
  IF i > Len(areas) THEN acc
  ELSE LET s == SubNewT(psize, areas[i]) IN StoredFrom(<<s[3], s[4]>>, areas, i + 1, Append(acc, s))
StoredChainT(img, areas) == StoredFrom(<<img.w, img.h>>, areas, 1, <<>>)
\* SubImage::draw / draw_sub_image (sub_image.rs:53-67): the innermost stored area is translated
\* by the top-left corners of all enclosing sub-images and handed to the root image
RECURSIVE SumTL(_, _)
SumTL(st, i) == IF i = 0 THEN <<0, 0>> ELSE LET r == SumTL(st, i - 1) IN <<r[1] + st[i][1], r[2] + st[i][2]>>
RootAreaT(img, areas) ==
  LET st == StoredChainT(img, areas)  k == Len(st)  o == SumTL(st, k - 1)
  IN <<st[k][1] + o[1], st[k][2] + o[2], st[k][3], st[k][4]>>
\* size() of the drawable (OriginDimensions)
SizeT(img, areas) ==
  IF areas = <<>> THEN <<img.w, img.h>>
  ELSE LET st == StoredChainT(img, areas) IN <<st[Len(st)][3], st[Len(st)][4]>>
\* drawing the drawable at the origin: a call or <<>>
DrawChainT(img, areas, variant) ==
  IF areas = <<>> THEN DrawRawT(img, variant) ELSE DrawSubRawT(img, RootAreaT(img, areas), variant)

(* TRANSCRIBED: src/image/mod.rs *)
\* Image::new (mod.rs:141) / Image::with_center (mod.rs:149): the offset
ImageOffsetT(mode, at, size) == IF mode = 0 THEN at ELSE TopLeft(WithCenter(at, size))
\* Drawable::draw (mod.rs:232): draw into display.translated(offset)
ImageDrawT(img, areas, mode, at, variant) ==
  LET c == DrawChainT(img, areas, variant)  o == ImageOffsetT(mode, at, SizeT(img, areas))
  IN IF c = <<>> THEN <<>> ELSE << [area |-> Shift(c[1].area, o), cp |-> c[1].cp] >>

---------------------------------------------------------------------------
(* test data shared by MC_C09 / MC_C10 and the recorders (byte k, 0-based) *)
PatByte(pat, k) ==
  IF pat = 0 THEN (37 * k + 11) % 256
  ELSE LET r == k % 8 IN ((165 * (2 ^ r)) % 256) + (165 \div (2 ^ (8 - r)))    \* 0xA5 rotated left by k
PatData(pat, len) == [k \in 1..len |-> PatByte(pat, k - 1)]
=============================================================================
