//! C04 recorder: fault injection.  For every drawable / target configuration the fault-free run
//! is recorded, then every run in which the k-th call on the underlying target fails at entry.
use egv::catalog;
use egv::drawables::*;
use egv::stacks::*;
use egv::targets::*;
use egv::util::*;
use egv::*;
use embedded_graphics::{
    image::{ImageDrawable, ImageRaw},
    pixelcolor::Rgb888,
    prelude::*,
};

struct DrawTop<'a> {
    d: &'a Value,
    /// 0 = Ok, otherwise the error token
    ret: u32,
}
impl<'a> StackVisitor for DrawTop<'a> {
    fn top<T, C>(&mut self, t: &mut T)
    where
        T: DrawTarget<Color = C, Error = FaultErr>,
        C: Chain,
        for<'b> ImageRaw<'b, C>: ImageDrawable<Color = C>,
    {
        self.ret = match draw_desc::<C, T>(self.d, t) {
            Ok(_) => 0,
            Err(FaultErr(k)) => k,
        };
    }
}

/// one run; returns (call digests, return token)
fn one_run(desc: &Value, fail_at: Option<u32>) -> (Vec<Value>, u32) {
    let pbox = rect_from(&desc["pbox"]);
    let layers = desc["layers"].as_array().unwrap();
    let mut v = DrawTop { d: &desc["d"], ret: 0 };
    if i(&desc["native"]) == 1 {
        let mut p = LogNative::<Rgb888>::new(pbox);
        p.fail_at = fail_at;
        with_stack(&mut p, layers, &mut v);
        (p.calls.iter().map(|c| c.digest()).collect(), v.ret)
    } else {
        let mut p = LogDefault::<Rgb888>::new(pbox);
        p.fail_at = fail_at;
        with_stack(&mut p, layers, &mut v);
        (p.calls.iter().map(|c| c.digest()).collect(), v.ret)
    }
}

fn run_case(rec: &mut Rec, desc: &Value) {
    rec.begin(desc.clone());
    let r = catch(|| one_run(desc, None));
    let (calls, ret) = match r {
        Ok(x) => x,
        Err(p) => {
            rec.note("panicked_cases");
            rec.ev("panic", json!({"msg": p.msg, "loc": p.loc}));
            return;
        }
    };
    let n = calls.len() as u32;
    rec.ev("ref", json!({"calls": calls, "ret": ret}));
    if n > 0 {
        rec.nontrivial();
    }
    rec.note_n("faulty_runs", n as u64);
    // all k, batched into one event per 32 runs
    let mut batch: Vec<Value> = vec![];
    for k in 1..=n {
        match catch(|| one_run(desc, Some(k))) {
            Ok((calls, ret)) => batch.push(json!({"k": k, "calls": calls, "ret": ret})),
            Err(p) => {
                rec.note("panicked_runs");
                rec.ev("panic", json!({"msg": p.msg, "loc": p.loc}));
            }
        }
        if batch.len() == 32 || k == n {
            rec.ev("faults", json!({"runs": std::mem::take(&mut batch)}));
        }
    }
}

fn main() {
    let args = Args::parse();
    install_panic_hook();
    let mut rec = Rec::new(&args);
    let mut rng = Rng::new(args.seed ^ 0xC04);
    let th = args.thorough();
    if let Some(cases) = &args.cases {
        for d in cases {
            run_case(&mut rec, d);
        }
        rec.finish(json!({}));
        return;
    }
    for d in args.gen.iter().chain(args.witnesses.iter()) {
        run_case(&mut rec, d);
    }
    let tl = (3, 2);
    let mut all = catalog::prims("Rgb888", th, &mut rng, tl);
    all.extend(catalog::texts("Rgb888", th, tl));
    all.extend(catalog::images("Rgb888", th, &mut rng, tl));
    catalog::add_dotted(&mut all, if th { 2 } else { 4 });
    let configs: Vec<Value> = vec![
        json!([]),
        json!([{"k":"tr","o":[2, -1]}]),
        json!([{"k":"cl","a":[0, 0, 9, 7]}]),
        json!([{"k":"cc"}, {"k":"cr","a":[1, 1, 30, 30]}]),
        json!([{"k":"cl","a":[-5, -5, 60, 60]}, {"k":"tr","o":[-1, 0]}, {"k":"cc"}]),
        json!([{"k":"cr","a":[2, 2, 6, 8]}, {"k":"cl","a":[0, 0, 5, 5]}]),
    ];
    // images as the colour types the conversion chain reaches
    let mut gray = catalog::images("Gray8", th, &mut rng, tl);
    gray.truncate(if th { 400 } else { 60 });
    let mut n = 0usize;
    for d in all.iter() {
        n += 1;
        // quick: one configuration per drawable (rotating); thorough: three
        let picks: Vec<usize> = if th { vec![n % 6, (n + 1) % 6, (n + 3) % 6] } else { vec![n % 6] };
        for c in picks {
            let native = ((n / 2 + c) % 2) as i32;
            // Gray8 images cannot be drawn on an Rgb888 top: images are only used with configs whose top is Rgb888
            if d["kind"] == "image" && configs[c].as_array().unwrap().iter().any(|l| l["k"] == "cc") {
                continue;
            }
            run_case(&mut rec, &json!({"d": d, "pbox": [0, 0, 40, 36], "native": native, "layers": configs[c]}));
        }
    }
    for (k, d) in gray.iter().enumerate() {
        run_case(&mut rec, &json!({"d": d, "pbox": [0, 0, 40, 36], "native": (k % 2) as i32, "layers": configs[3]}));
    }
    rec.finish(json!({}));
}
