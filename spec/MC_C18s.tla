------------------------------- MODULE MC_C18s ------------------------------
(* (M) for C18, arcs and sectors: the TRANSCRIBED plane sector (EGSector) on   *)
(* the transcribed circle is rasterised row by row and checked against the     *)
(* ABSTRACT wedge reading of the property (EGCurve!WedgeOK: inside the swept   *)
(* angle up to 1.5 px at the radial boundaries, everything further inside is   *)
(* included; a full sweep is the circle).  Control: NoSwap = TRUE (half planes *)
(* built from the un-swapped angles for negative sweeps) must be refuted.      *)
EXTENDS EGCurve, EGSector, TLC
CONSTANTS DMax, NoSwap
VARIABLES cfg, y, runs, crun

Sweeps == {-6400, -5760, -4320, -3600, -2880, -2160, -1440, -480, 0, 16, 720, 1440, 2160, 2880, 3600, 5760, 6400}
Cfgs == [d : 1..DMax, a0 : { 240 * k - 2880 : k \in 0..23 }, sw : Sweeps]
TL == <<-3, 2>>
C2 == Centre2x(TL, cfg.d)
PS == PlaneSectorNew(cfg.a0, cfg.sw, NoSwap)
InCircle(p) == CircleContainsT(TL, cfg.d, p)
InSector(p) == InCircle(p) /\ PlaneContains(PS, <<2 * p[1] - C2[1], 2 * p[2] - C2[2]>>)   \* sector/mod.rs:157-165
RunsOfRow(yy, Pred(_)) ==
  LET xs == { x \in (TL[1] - 1)..(TL[1] + cfg.d) : Pred(<<x, yy>>) }
      starts == { x \in xs : (x - 1) \notin xs }
      RECURSIVE Mk(_)
      Mk(st) == IF st = {} THEN <<>>
                ELSE LET x0 == CHOOSE x \in st : \A z \in st : x <= z
                         x1 == CHOOSE x \in xs : x >= x0 /\ (x + 1) \notin xs /\ \A z \in x0..x : z \in xs
                     IN << <<yy, x0, x1>> >> \o Mk(st \ {x0})
  IN Mk(starts)

Init == cfg \in Cfgs /\ y = TL[2] - 1 /\ runs = <<>> /\ crun = <<>>
ScanRow == /\ y <= TL[2] + cfg.d
           /\ runs' = runs \o RunsOfRow(y, InSector) /\ crun' = crun \o RunsOfRow(y, InCircle)
           /\ y' = y + 1 /\ UNCHANGED cfg
Next == ScanRow
Spec == Init /\ [][Next]_<<cfg, y, runs, crun>>

Finished == y > TL[2] + cfg.d
InsideTheSweep == (Finished /\ Abs(cfg.sw) < 5760) => WedgeOK(TL, cfg.d, cfg.a0, cfg.sw, crun, runs)
FullSweepIsCircle == (Finished /\ Abs(cfg.sw) >= 5760) => runs = crun
=============================================================================
