CONSTANTS
  R = 2
  RT = 6
  WMax = 7
  Broken = FALSE
  Gen = FALSE
  LineBoxUsed <- LineBoxOneSided
SPECIFICATION Spec
INVARIANTS ThickInsideStyledBox ExtentsParallel ThickRemBound
CHECK_DEADLOCK FALSE
