CONSTANTS
  MaxLen = 5
  Depth = 5
  Pinned = FALSE
  Gen = TRUE
SPECIFICATION Spec
INVARIANTS StoreOK LoadOK IterOK PosRel LayoutOK DocOK OutOK
CHECK_DEADLOCK FALSE
