----------------------------- MODULE Proof_C10 -----------------------------
(* Unbounded versions of two frame conditions that MC_C10 checks on small     *)
(* framebuffers: every byte index Framebuffer::set_pixel computes for a point *)
(* inside WIDTH x HEIGHT lies inside the used prefix data[0..BUFFER_SIZE) -   *)
(* so bytes beyond the used prefix of an oversized buffer are never written - *)
(* and the bit index lies inside the byte, for ALL sizes and both data        *)
(* orders; for the sub-byte formats (impl_bit!, framebuffer.rs:152-167) and   *)
(* the byte formats (impl_bytes!, :244-262).  Checked with TLAPS (tlapm); not *)
(* load-bearing for any check.                                                *)
EXTENDS Integers, TLAPS

\* buffer_size_bpp (framebuffer.rs:32): rows padded to whole bytes
BytesPerRow(w, bpp) == (w * bpp + 7) \div 8
BufSize(w, h, bpp) == BytesPerRow(w, bpp) * h

\* impl_bit!: bpp in {1, 2, 4}, ppb = 8 / bpp pixels per byte
ByteIndexBits(w, bpp, x, y) == BytesPerRow(w, bpp) * y + (x \div (8 \div bpp))
BitIndexMsb0(bpp, x) == 8 - ((x % (8 \div bpp)) + 1) * bpp
BitIndexLsb0(bpp, x) == (x % (8 \div bpp)) * bpp

LEMMA RowFits ==
  ASSUME NEW w \in Nat, NEW bpp \in {1, 2, 4}, NEW x \in Nat, x < w
  PROVE  x \div (8 \div bpp) < BytesPerRow(w, bpp)
<1>1. CASE bpp = 1
  BY <1>1 DEF BytesPerRow
<1>2. CASE bpp = 2
  BY <1>2 DEF BytesPerRow
<1>3. CASE bpp = 4
  BY <1>3 DEF BytesPerRow
<1> QED BY <1>1, <1>2, <1>3

THEOREM SubByteIndexInUsedPrefix ==
  ASSUME NEW w \in Nat, NEW h \in Nat, NEW bpp \in {1, 2, 4}, NEW x \in Nat, NEW y \in Nat, x < w, y < h
  PROVE  /\ ByteIndexBits(w, bpp, x, y) >= 0
         /\ ByteIndexBits(w, bpp, x, y) < BufSize(w, h, bpp)
<1> DEFINE r == BytesPerRow(w, bpp)  c == x \div (8 \div bpp)
<1>1. r \in Nat /\ c \in Nat /\ c < r
  BY RowFits DEF BytesPerRow
<1>2. r * y + c < r * (y + 1)
  BY <1>1
<1>3. r * (y + 1) <= r * h
  BY <1>1
<1> QED BY <1>1, <1>2, <1>3 DEF ByteIndexBits, BufSize

THEOREM BitIndexInsideByte ==
  ASSUME NEW bpp \in {1, 2, 4}, NEW x \in Nat
  PROVE  /\ BitIndexMsb0(bpp, x) \in 0..(8 - bpp)
         /\ BitIndexLsb0(bpp, x) \in 0..(8 - bpp)
<1>1. CASE bpp = 1
  BY <1>1 DEF BitIndexMsb0, BitIndexLsb0
<1>2. CASE bpp = 2
  BY <1>2 DEF BitIndexMsb0, BitIndexLsb0
<1>3. CASE bpp = 4
  BY <1>3 DEF BitIndexMsb0, BitIndexLsb0
<1> QED BY <1>1, <1>2, <1>3

\* impl_bytes!: n = bpp / 8 bytes per pixel, index = (y * WIDTH + x) * n, n bytes are written
THEOREM ByteFormatsInUsedPrefix ==
  ASSUME NEW w \in Nat, NEW h \in Nat, NEW n \in {1, 2, 3, 4}, NEW x \in Nat, NEW y \in Nat, x < w, y < h
  PROVE  (y * w + x) * n + n <= (w * n) * h
<1> DEFINE k == h - (y + 1)
<1>0. k \in Nat /\ h = (y + 1) + k
  OBVIOUS
<1>1. y * w + x + 1 <= w * (y + 1)
  OBVIOUS
<1>2. w * h = w * (y + 1) + w * k /\ w * k >= 0
  BY <1>0
<1>3. y * w + x + 1 <= w * h
  BY <1>1, <1>2
<1>4. (y * w + x + 1) * n <= (w * h) * n
  BY <1>3
<1> QED BY <1>4
=============================================================================
