#!/usr/bin/env python3
"""Developer tool: (re)generate the table of seeded changes in DESIGN.md between the SEEDTABLE markers."""
import os, re, subprocess
ROOT = os.path.dirname(os.path.dirname(os.path.abspath(__file__)))
tab = subprocess.check_output(["python3", os.path.join(ROOT, "tools", "seedtable.py")]).decode()
p = os.path.join(ROOT, "DESIGN.md")
s = open(p).read()
block = "<!-- SEEDTABLE -->\n" + tab + "<!-- /SEEDTABLE -->"
if "<!-- /SEEDTABLE -->" in s:
    s = re.sub(r"<!-- SEEDTABLE -->.*?<!-- /SEEDTABLE -->", lambda m: block, s, flags=re.S)
else:
    s = s.replace("<!-- SEEDTABLE -->", block, 1)
open(p, "w").write(s)
print("table written:", tab.count("\n"), "lines")
